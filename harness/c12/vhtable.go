//go:build verif

package c12

// `vht` cases: ONE virtual host of a real router (router manager AddOrUpdateRouters), lookups on the request path
// (RoutersWrapper.GetRouters -> routersImpl.MatchRoute / MatchAllRoutes / MatchRouteFromHeaderKV -> VirtualHostImpl.GetRouteFromEntries /
// GetAllRoutesFromEntries / GetRouteFromHeaderKV) against the single-route updates of the router manager (RemoveAllRoutes, AddRoute ->
// VirtualHostImpl.RemoveAllRoutes / addRouteBase), which modify the virtual host's route slice IN PLACE.
//
//   p<i>: the old table holds, at slot i, a GATE route: a variable route (Match.Variables on `verif_vht_gate`) whose variable getter —
//         registered through the exported mosn.io/pkg/variable API — blocks: the lookup is parked MID-WALK inside route.Match of slot i,
//         holding whatever the lookup holds there. Then ONE goroutine issues RemoveAllRoutes + k AddRoute calls; the harness waits until
//         that goroutine either finished or sits in sync.RWMutex.Lock (read off runtime.Stack, no timing guess), notes how many calls
//         completed, opens the gate, and collects the lookup's answer, then the writer's end and the observation of the final table.
//   s:    no concurrency: the observation of the table before and after each call (first match, all matches, header-KV fast index for
//         every request token).
// Routes: RPC rules with one header matcher on `q`: `x` exact (=> filed in the fast index), `r` regex over the request tokens it
// matches; `g` the gate. Requests: header q = "0".."3". Route identity = cluster name.
// Line: `vht <old> <new> <p<i>|s> <f|a|-> <q|-> => p: <parked> <answer> <calls completed while parked> <final obs> | s: <obs> …`.

import (
	"context"
	"fmt"
	"strings"
	"sync"
	"sync/atomic"
	"time"

	"mosn.io/api"
	v2 "mosn.io/mosn/pkg/config/v2"
	"mosn.io/mosn/pkg/configmanager"
	"mosn.io/mosn/pkg/protocol"
	"mosn.io/mosn/pkg/router"
	"mosn.io/mosn/pkg/types"
	"mosn.io/pkg/variable"
	"verif/harness/hx"
)

const vhtGateVar = "verif_vht_gate"

type vhtGate struct {
	armed   int32
	parked  chan struct{}
	release chan struct{}
}

var (
	vhtOnce sync.Once
	vhtCur  atomic.Value // *vhtGate
	vhtTok  atomic.Value // string: the request token of the lookup in progress
)

func vhtRegister() {
	vhtOnce.Do(func() {
		vhtTok.Store("")
		vhtCur.Store((*vhtGate)(nil))
		getter := func(ctx context.Context, _ *variable.IndexedValue, _ interface{}) (string, error) {
			if g, _ := vhtCur.Load().(*vhtGate); g != nil && atomic.CompareAndSwapInt32(&g.armed, 1, 0) {
				g.parked <- struct{}{}
				<-g.release
			}
			return vhtTok.Load().(string), nil
		}
		if err := variable.Register(variable.NewStringVariable(vhtGateVar, nil, getter, nil, 0)); err != nil {
			panic(err)
		}
	})
}

type vhtRoute struct {
	id   string
	kind byte // 'x' exact, 'r' regex, 'g' gate
	set  []int
}

func (r vhtRoute) tok() string {
	s := "-"
	if len(r.set) > 0 {
		var sb strings.Builder
		for _, q := range r.set {
			sb.WriteByte(byte('0' + q))
		}
		s = sb.String()
	}
	return fmt.Sprintf("%s:%c:%s", r.id, r.kind, s)
}

func vhtRoutesTok(rs []vhtRoute) string {
	if len(rs) == 0 {
		return "-"
	}
	var p []string
	for _, r := range rs {
		p = append(p, r.tok())
	}
	return strings.Join(p, ",")
}

func vhtRegex(set []int) string {
	if len(set) == 0 {
		return "^(none)$"
	}
	var p []string
	for _, q := range set {
		p = append(p, fmt.Sprint(q))
	}
	return "^(" + strings.Join(p, "|") + ")$"
}

func (r vhtRoute) cfg() v2.Router {
	rt := v2.Router{}
	switch r.kind {
	case 'x':
		rt.Match.Headers = []v2.HeaderMatcher{{Name: "q", Value: fmt.Sprint(r.set[0])}}
	case 'r':
		rt.Match.Headers = []v2.HeaderMatcher{{Name: "q", Value: vhtRegex(r.set), Regex: true}}
	case 'g':
		rt.Match.Variables = []v2.VariableMatcher{{Name: vhtGateVar, Regex: vhtRegex(r.set)}}
	}
	rt.Route.ClusterName = r.id
	return rt
}

func (r vhtRoute) matches(q int) bool {
	for _, x := range r.set {
		if x == q {
			return true
		}
	}
	return false
}

func vhtCtx(q int) (context.Context, api.HeaderMap) {
	vhtTok.Store(fmt.Sprint(q))
	return variable.NewVariableContext(context.Background()), protocol.CommonHeader{"q": fmt.Sprint(q)}
}

func vhtName(ctx context.Context, r api.Route) string { return r.RouteRule().ClusterName(ctx) }

// vhtLookup: one lookup through the request path. kind: 'f' MatchRoute, 'a' MatchAllRoutes, 'k' MatchRouteFromHeaderKV
func vhtLookup(rs types.Routers, kind byte, q int) string {
	ctx, hdr := vhtCtx(q)
	var ids []string
	switch kind {
	case 'f':
		if r := rs.MatchRoute(ctx, hdr); r != nil {
			ids = append(ids, vhtName(ctx, r))
		}
	case 'a':
		for _, r := range rs.MatchAllRoutes(ctx, hdr) {
			ids = append(ids, vhtName(ctx, r))
		}
	case 'k':
		if r := rs.MatchRouteFromHeaderKV(ctx, hdr, "q", fmt.Sprint(q)); r != nil {
			ids = append(ids, vhtName(ctx, r))
		}
	}
	return dashJoinPlus(ids)
}

func dashJoinPlus(ids []string) string {
	if len(ids) == 0 {
		return "-"
	}
	return strings.Join(ids, "+")
}

const vhtTokens = 4

func vhtObs(rm types.RouterManager, name string) string {
	w := rm.GetRouterWrapperByName(name)
	if w == nil || w.GetRouters() == nil {
		return "norouters"
	}
	var cells []string
	for q := 0; q < vhtTokens; q++ {
		rs := w.GetRouters()
		cells = append(cells, vhtLookup(rs, 'f', q)+";"+vhtLookup(rs, 'a', q)+";"+vhtLookup(rs, 'k', q))
	}
	return strings.Join(cells, ",")
}

// vhtWriter issues the writer calls one after the other (the function name is looked for in the goroutine dump)
func vhtWriter(rm types.RouterManager, name string, news []vhtRoute, completed *int32, done chan struct{}) {
	defer close(done)
	hx.Safe(func() {
		rm.RemoveAllRoutes(name, "*")
		atomic.AddInt32(completed, 1)
		for _, r := range news {
			cfg := r.cfg()
			rm.AddRoute(name, "*", &cfg)
			atomic.AddInt32(completed, 1)
		}
	})
}

// vhtWriterBlocked: the writer goroutine waits for a mutex (as opposed to: runs, is runnable, has not started)
func vhtWriterBlocked() bool {
	_, gs := hx.Goroutines()
	for _, g := range gs {
		if !strings.Contains(g.Stack, "c12.vhtWriter") {
			continue
		}
		switch {
		case strings.HasPrefix(g.State, "sync.RWMutex.Lock"), strings.HasPrefix(g.State, "sync.Mutex.Lock"),
			strings.HasPrefix(g.State, "semacquire"), strings.HasPrefix(g.State, "sync.RWMutex.RLock"):
			return true
		}
	}
	return false
}

var vhtSeq int

func vhtSetup(c *hx.Ctx, old []vhtRoute) (types.RouterManager, string, bool) {
	vhtRegister()
	histNo++
	vhtSeq++
	configmanager.Reset()
	rm := router.GetRoutersMangerInstance()
	name := fmt.Sprintf("vht%d.%d", c.Seed, vhtSeq)
	rc := &v2.RouterConfiguration{}
	rc.RouterConfigName = name
	vh := v2.VirtualHost{Name: "v", Domains: []string{"*"}}
	for _, r := range old {
		vh.Routers = append(vh.Routers, r.cfg())
	}
	rc.VirtualHosts = []v2.VirtualHost{vh}
	if err := rm.AddOrUpdateRouters(rc); err != nil {
		return rm, name, false
	}
	return rm, name, true
}

// vhtPark runs one `p` case.
func vhtPark(c *hx.Ctx, old, news []vhtRoute, slot int, kind byte, q int) {
	caseTok := fmt.Sprintf("vht %s %s p%d %c %d", vhtRoutesTok(old), vhtRoutesTok(news), slot, kind, q)
	rm, name, ok := vhtSetup(c, old)
	if !ok {
		c.Emit("C12", caseTok, "0 setup-failed 0 -")
		return
	}
	g := &vhtGate{armed: 1, parked: make(chan struct{}, 1), release: make(chan struct{})}
	vhtCur.Store(g)
	defer vhtCur.Store((*vhtGate)(nil))
	rs := rm.GetRouterWrapperByName(name).GetRouters()
	ans := make(chan string, 1)
	go func() {
		var a string
		if _, p := hx.Safe(func() { a = vhtLookup(rs, kind, q) }); p {
			a = "panic"
		}
		ans <- a
	}()
	parked, answer := false, ""
	select {
	case <-g.parked:
		parked = true
	case answer = <-ans:
	case <-time.After(20 * time.Second):
		answer = "stuck"
	}
	var completed int32
	wdone := make(chan struct{})
	go vhtWriter(rm, name, news, &completed, wdone)
	finished := func() bool {
		select {
		case <-wdone:
			return true
		default:
			return false
		}
	}
	if parked {
		// until the writer has finished or waits for a lock
		deadline := time.Now().Add(20 * time.Second)
		for !finished() && time.Now().Before(deadline) {
			if vhtWriterBlocked() && !finished() {
				break
			}
			time.Sleep(20 * time.Microsecond)
		}
	} else {
		select {
		case <-wdone:
		case <-time.After(20 * time.Second):
		}
	}
	c1 := atomic.LoadInt32(&completed)
	if parked {
		close(g.release)
		select {
		case answer = <-ans:
		case <-time.After(20 * time.Second):
			answer = "stuck"
		}
	}
	select {
	case <-wdone:
	case <-time.After(20 * time.Second):
		answer = "stuck"
	}
	fobs := "-"
	if answer != "stuck" {
		vhtCur.Store((*vhtGate)(nil))
		fobs = vhtObs(rm, name)
	}
	pk := 0
	if parked {
		pk = 1
	}
	c.Emit("C12", caseTok, fmt.Sprintf("%d %s %d %s", pk, answer, c1, fobs))
	if parked {
		c.Count("vht.p.parked")
		if int(c1) == 0 {
			c.Count("vht.p.writer_blocked_while_parked")
		} else {
			c.Count("vht.p.writer_ran_while_parked")
		}
	} else {
		c.Count("vht.p.answered_before_gate")
	}
	c.Count(fmt.Sprintf("vht.p.old=%d", len(old)))
	c.Count(fmt.Sprintf("vht.p.new=%d", len(news)))
	c.Count(fmt.Sprintf("vht.p.kind=%c", kind))
}

// vhtSeqCase runs one `s` case.
func vhtSeqCase(c *hx.Ctx, old, news []vhtRoute) {
	caseTok := fmt.Sprintf("vht %s %s s - -", vhtRoutesTok(old), vhtRoutesTok(news))
	rm, name, ok := vhtSetup(c, old)
	if !ok {
		c.Emit("C12", caseTok, "setup-failed")
		return
	}
	vhtCur.Store((*vhtGate)(nil))
	obs := []string{vhtObs(rm, name)}
	if _, p := hx.Safe(func() {
		rm.RemoveAllRoutes(name, "*")
		obs = append(obs, vhtObs(rm, name))
		for _, r := range news {
			cfg := r.cfg()
			rm.AddRoute(name, "*", &cfg)
			obs = append(obs, vhtObs(rm, name))
		}
	}); p {
		obs = append(obs, "panic")
	}
	c.Emit("C12", caseTok, strings.Join(obs, " "))
	c.Count("vht.s.cases")
	c.Count(fmt.Sprintf("vht.s.old=%d", len(old)))
	c.Count(fmt.Sprintf("vht.s.new=%d", len(news)))
}

// ---------------------------------------------------------------- generators

func vhtSubset(r *hx.Rng, pIn int) []int {
	var s []int
	for q := 0; q < vhtTokens; q++ {
		if r.Chance(pIn) {
			s = append(s, q)
		}
	}
	return s
}

func vhtWithout(set []int, q int) []int {
	var o []int
	for _, x := range set {
		if x != q {
			o = append(o, x)
		}
	}
	return o
}

func vhtWith(set []int, q int) []int {
	for _, x := range set {
		if x == q {
			return set
		}
	}
	o := append(append([]int{}, set...), q)
	for i := len(o) - 1; i > 0 && o[i] < o[i-1]; i-- {
		o[i], o[i-1] = o[i-1], o[i]
	}
	return o
}

// vhtRandRoute: a regex route over a random subset (3 of 4) or an exact route
func vhtRandRoute(r *hx.Rng, id string) vhtRoute {
	if r.Chance(25) {
		return vhtRoute{id: id, kind: 'x', set: []int{r.Intn(vhtTokens)}}
	}
	return vhtRoute{id: id, kind: 'r', set: vhtSubset(r, 35)}
}

// vhtForce makes route rt match (want) / not match q, keeping its kind when possible
func vhtForce(rt vhtRoute, q int, want bool) vhtRoute {
	if rt.kind == 'x' {
		if want {
			rt.set = []int{q}
		} else if rt.set[0] == q {
			rt.set = []int{(q + 1) % vhtTokens}
		}
		return rt
	}
	if want {
		rt.set = vhtWith(rt.set, q)
	} else {
		rt.set = vhtWithout(rt.set, q)
	}
	return rt
}

// vhtGenPark: one parked case of the family fam for table sizes n (old, incl. the gate) and k (new), gate at slot i.
//
//	fam 0: random            fam 1: q matches an old route at a slot >= max(k, i+1) only (among the old routes behind the gate)
//	fam 2: q matches an old route at a slot in (i, k) only          fam 3: q matches only new routes
//	fam 4: q matches nothing  fam 5: q matches TWO old routes behind the gate (and no new route at the slots between)
func vhtGenPark(r *hx.Rng, n, k, i, fam int) (old, news []vhtRoute, kind byte, q int) {
	q = r.Intn(vhtTokens)
	kind = 'f'
	if r.Chance(40) {
		kind = 'a'
	}
	for s := 0; s < n; s++ {
		if s == i {
			old = append(old, vhtRoute{id: fmt.Sprintf("g%d", s), kind: 'g', set: vhtSubset(r, 20)})
		} else {
			old = append(old, vhtRandRoute(r, fmt.Sprintf("o%d", s)))
		}
	}
	for s := 0; s < k; s++ {
		news = append(news, vhtRandRoute(r, fmt.Sprintf("n%d", s)))
	}
	if fam == 0 {
		return
	}
	// the slots before the gate (and the gate) do not match, so that a first-match lookup reaches the gate and goes on
	for s := 0; s <= i && s < n; s++ {
		old[s] = vhtForce(old[s], q, false)
	}
	behind := func(pred func(s int) bool) []int {
		var o []int
		for s := i + 1; s < n; s++ {
			if pred(s) {
				o = append(o, s)
			}
		}
		return o
	}
	clearOld := func() {
		for s := i + 1; s < n; s++ {
			old[s] = vhtForce(old[s], q, false)
		}
	}
	clearNew := func() {
		for s := range news {
			news[s] = vhtForce(news[s], q, false)
		}
	}
	switch fam {
	case 1:
		if c := behind(func(s int) bool { return s >= k }); len(c) > 0 {
			clearOld()
			clearNew()
			s := c[r.Intn(len(c))]
			old[s] = vhtForce(old[s], q, true)
		}
	case 2:
		if c := behind(func(s int) bool { return s < k }); len(c) > 0 {
			clearOld()
			s := c[r.Intn(len(c))]
			old[s] = vhtForce(old[s], q, true)
		}
	case 3:
		clearOld()
		if k > 0 {
			s := r.Intn(k)
			news[s] = vhtForce(news[s], q, true)
		}
	case 4:
		clearOld()
		clearNew()
	case 5:
		if c := behind(func(int) bool { return true }); len(c) >= 2 {
			clearOld()
			a := r.Intn(len(c) - 1)
			b := a + 1 + r.Intn(len(c)-a-1)
			old[c[a]] = vhtForce(old[c[a]], q, true)
			old[c[b]] = vhtForce(old[c[b]], q, true)
			for s := 0; s < k && s <= c[b]; s++ {
				news[s] = vhtForce(news[s], q, false)
			}
		}
	}
	return
}

func runVhtAll(c *hx.Ctx) {
	r := c.Rng.Fork()
	t0 := time.Now()
	// fixed boundary cases first: the history of the machine-checked witness (a request matching two old routes behind the gate,
	// RemoveAllRoutes + 2 AddRoute), both lookups; an empty new table; a new table longer than the old array's capacity
	rr := func(id string, set ...int) vhtRoute { return vhtRoute{id: id, kind: 'r', set: set} }
	xx := func(id string, v int) vhtRoute { return vhtRoute{id: id, kind: 'x', set: []int{v}} }
	gg := func(id string, set ...int) vhtRoute { return vhtRoute{id: id, kind: 'g', set: set} }
	fixed := []struct {
		old, news []vhtRoute
		slot      int
		kind      byte
		q         int
	}{
		{[]vhtRoute{gg("g0"), rr("b", 0), rr("c", 0)}, []vhtRoute{rr("x", 1), xx("y", 1)}, 0, 'f', 0},
		{[]vhtRoute{gg("g0"), rr("b", 0), rr("c", 0)}, []vhtRoute{rr("x", 1), xx("y", 1)}, 0, 'a', 0},
		{[]vhtRoute{rr("a", 1), gg("g1", 0), rr("c", 0, 1)}, []vhtRoute{rr("x", 0), rr("y", 0)}, 1, 'a', 0},
		{[]vhtRoute{gg("g0", 2), xx("b", 2)}, nil, 0, 'a', 2},
		{[]vhtRoute{gg("g0"), rr("b", 3), rr("c", 3)}, []vhtRoute{rr("n0", 1), rr("n1", 1), rr("n2", 1), rr("n3", 1), rr("n4", 3), rr("n5", 1)}, 0, 'f', 3},
		{[]vhtRoute{rr("a", 0), gg("g1", 1)}, []vhtRoute{rr("x", 1)}, 1, 'f', 0}, // answered before the gate is reached
	}
	for _, f := range fixed {
		vhtPark(c, f.old, f.news, f.slot, f.kind, f.q)
		c.Count("vht.stream=fixed")
	}
	// every (old size 1..6, new size 0..6), several gate slots and families
	rounds := c.N(2, 6)
	for n := 1; n <= 6; n++ {
		for k := 0; k <= 6; k++ {
			for round := 0; round < rounds; round++ {
				for fam := 0; fam <= 5; fam++ {
					i := r.Intn(n)
					if fam >= 1 && n > 1 && r.Chance(70) {
						i = r.Intn(n - 1) // leave routes behind the gate
					}
					old, news, kind, q := vhtGenPark(r, n, k, i, fam)
					vhtPark(c, old, news, i, kind, q)
					c.Count(fmt.Sprintf("vht.p.family=%d", fam))
					c.Count("vht.stream=generated")
				}
			}
		}
	}
	// sequential histories: fast index and walks after every call
	ns := c.N(120, 1200)
	for j := 0; j < ns; j++ {
		n, k := r.Intn(7), r.Intn(7)
		var old, news []vhtRoute
		for s := 0; s < n; s++ {
			old = append(old, vhtRandRoute(r, fmt.Sprintf("o%d", s)))
		}
		for s := 0; s < k; s++ {
			news = append(news, vhtRandRoute(r, fmt.Sprintf("n%d", s)))
		}
		if j%3 == 0 {
			// many exact routes on few values: the index entry is overwritten
			for s := range news {
				news[s] = vhtRoute{id: news[s].id, kind: 'x', set: []int{r.Intn(2)}}
			}
		}
		vhtSeqCase(c, old, news)
	}
	if d := time.Since(t0); d > 40*time.Second {
		hx.Logf("c12 vht: %v for the vht cases", d)
	}
}
