//go:build verif

// Package c12: runtime updates are coherent and reproducible from the dumped config.
// Histories of update operations (router manager, cluster manager, xDS endpoint conversion) are applied to the REAL
// singletons; after each history the effective config is dumped through configmanager (the bytes MOSN writes to its
// config file), parsed back, and FRESH routers / a fresh cluster manager are built from it with the real constructors;
// the live objects and the rebuilt ones are observed the same way (MatchAllRoutes on a request grid, host lists).
package c12

import (
	"context"
	"encoding/json"
	"fmt"
	"net"
	"sort"
	"strings"
	"sync"
	"sync/atomic"
	"time"

	xcluster "github.com/envoyproxy/go-control-plane/envoy/config/cluster/v3"
	core "github.com/envoyproxy/go-control-plane/envoy/config/core/v3"
	ep "github.com/envoyproxy/go-control-plane/envoy/config/endpoint/v3"
	"google.golang.org/protobuf/types/known/wrapperspb"
	"mosn.io/api"
	"mosn.io/mosn/istio/istio1106/xds/conv"
	v2 "mosn.io/mosn/pkg/config/v2"
	"mosn.io/mosn/pkg/configmanager"
	mlog "mosn.io/mosn/pkg/log"
	"mosn.io/mosn/pkg/protocol"
	"mosn.io/mosn/pkg/router"
	"mosn.io/mosn/pkg/server"
	"mosn.io/mosn/pkg/streamfilter"
	"mosn.io/mosn/pkg/types"
	"mosn.io/mosn/pkg/upstream/cluster"
	"mosn.io/pkg/variable"
	"verif/harness/hx"
)

func init() { hx.Register("C12", Run) }

const nilClusterType = v2.ClusterType("VERIF_NIL")

// ---------------------------------------------------------------- case vocabulary

type route struct {
	id, pfx string // pfx: letters = path segments ("" = "/", "ab" = "/a/b")
	valid   bool
}
type vhost struct {
	name   string
	doms   []string
	routes []route
}
type host struct {
	addr, name string
	w          uint32
}
type xhost struct {
	addr string
	w    int64 // -1 = no load-balancing weight
}
type assign struct {
	c    string
	locs [][]xhost
}
type lcfg struct {
	name, addr   string
	chains       int
	sf           []string
	nf, idle     int
	keep         int
	tlsOk        bool
}
type op struct {
	lc              lcfg
	via             bool // cluster operations: through cluster.MngAdapter (Trigger*) instead of the manager
	eds             bool // XC / XD: EDS-type cluster
	kind            string
	r, c, domain    string
	vhs             []vhost
	rt              route
	tag             uint32
	cfgHosts, hosts []host
	strs            []string
	assigns         []assign
}

func pfxPath(p string) string {
	if p == "" {
		return "/"
	}
	var sb strings.Builder
	for _, ch := range p {
		sb.WriteByte('/')
		sb.WriteRune(ch)
	}
	return sb.String()
}

func (r route) tok() string {
	k := "p"
	if !r.valid {
		k = "x"
	}
	return r.id + "^" + r.pfx + "^" + k
}
func domTok(d string) string {
	if d == "" {
		return "_"
	}
	return d
}
func (v vhost) tok() string {
	var ds, rs []string
	for _, d := range v.doms {
		ds = append(ds, domTok(d))
	}
	for _, r := range v.routes {
		rs = append(rs, r.tok())
	}
	return v.name + "~" + strings.Join(ds, "+") + "~" + strings.Join(rs, "+")
}
func nameTok(s string) string {
	if s == "" {
		return "-"
	}
	return s
}
func (h host) tok() string { return fmt.Sprintf("%s~%s~%d", h.addr, nameTok(h.name), h.w) }
func hostsTok(hs []host) string {
	var p []string
	for _, h := range hs {
		p = append(p, h.tok())
	}
	return strings.Join(p, ",")
}
func locsTok(locs [][]xhost) string {
	var ls []string
	for _, l := range locs {
		if len(l) == 0 {
			ls = append(ls, "_")
			continue
		}
		var xs []string
		for _, x := range l {
			w := "-"
			if x.w >= 0 {
				w = fmt.Sprint(x.w)
			}
			xs = append(xs, x.addr+"~"+w)
		}
		ls = append(ls, strings.Join(xs, ","))
	}
	return strings.Join(ls, ";")
}

func (o op) tok() string {
	t := o.tok0()
	if o.via {
		return strings.ToLower(t[:2]) + t[2:]
	}
	return t
}

func (o op) tok0() string {
	et := "S"
	if o.eds {
		et = "E"
	}
	switch o.kind {
	case "XC":
		return fmt.Sprintf("XC/%s/%d/%s/%s", o.c, o.tag, et, locsTok(o.assigns[0].locs))
	case "XD":
		return "XD/" + o.c + "/" + et
	case "RN":
		return "RN"
	case "RU":
		var p []string
		for _, v := range o.vhs {
			p = append(p, v.tok())
		}
		return "RU/" + o.r + "/" + strings.Join(p, ",")
	case "RA":
		return "RA/" + o.r + "/" + domTok(o.domain) + "/" + o.rt.tok()
	case "RR":
		return "RR/" + o.r + "/" + domTok(o.domain)
	case "CP":
		return fmt.Sprintf("CP/%s/%d/%s", o.c, o.tag, hostsTok(o.cfgHosts))
	case "CH":
		return fmt.Sprintf("CH/%s/%d/%s/%s", o.c, o.tag, hostsTok(o.cfgHosts), hostsTok(o.hosts))
	case "CN":
		return "CN/" + o.c
	case "HU", "HA":
		return o.kind + "/" + o.c + "/" + hostsTok(o.hosts)
	case "HR":
		return "HR/" + o.c + "/" + strings.Join(o.strs, ",")
	case "CR":
		return "CR/" + strings.Join(o.strs, ",")
	case "LA":
		sf, t := "-", "T1"
		if len(o.lc.sf) > 0 {
			sf = strings.Join(o.lc.sf, "+")
		}
		if !o.lc.tlsOk {
			t = "T0"
		}
		return fmt.Sprintf("LA/%s/%s/%d/%s/%d/%d/%d/%s", nameTok(o.lc.name), o.lc.addr, o.lc.chains, sf, o.lc.nf, o.lc.idle, o.lc.keep, t)
	case "LD":
		return "LD/" + o.r
	case "XE":
		var p []string
		for _, a := range o.assigns {
			p = append(p, a.c+"/"+locsTok(a.locs))
		}
		return "XE/" + strings.Join(p, "/")
	}
	panic("kind " + o.kind)
}

// ---------------------------------------------------------------- real objects

func (r route) cfg() v2.Router {
	rt := v2.Router{}
	if r.valid {
		rt.Match.Prefix = pfxPath(r.pfx)
	} else {
		rt.Match.Regex = "(" // does not compile => NewRouteBase fails
	}
	rt.Route.ClusterName = r.id
	return rt
}

func routerCfg(realName string, vhs []vhost) *v2.RouterConfiguration {
	rc := &v2.RouterConfiguration{}
	rc.RouterConfigName = realName
	for _, v := range vhs {
		vh := v2.VirtualHost{Name: v.name, Domains: append([]string{}, v.doms...)}
		for _, r := range v.routes {
			vh.Routers = append(vh.Routers, r.cfg())
		}
		rc.VirtualHosts = append(rc.VirtualHosts, vh)
	}
	return rc
}

func hostCfgs(hs []host) []v2.Host {
	var out []v2.Host
	for _, h := range hs {
		out = append(out, v2.Host{HostConfig: v2.HostConfig{Address: h.addr, Hostname: h.name, Weight: h.w}})
	}
	return out
}

func clusterCfg(name string, tag uint32, hs []host) v2.Cluster {
	return v2.Cluster{Name: name, ClusterType: v2.SIMPLE_CLUSTER, LbType: v2.LB_RANDOM, MaxRequestPerConn: tag,
		ConnBufferLimitBytes: 16384, Hosts: hostCfgs(hs)}
}

func lbEndpoint(x xhost) *ep.LbEndpoint {
	hp := strings.LastIndex(x.addr, ":")
	var port uint32
	fmt.Sscan(x.addr[hp+1:], &port)
	e := &ep.LbEndpoint{HostIdentifier: &ep.LbEndpoint_Endpoint{Endpoint: &ep.Endpoint{Address: &core.Address{
		Address: &core.Address_SocketAddress{SocketAddress: &core.SocketAddress{Address: x.addr[:hp],
			PortSpecifier: &core.SocketAddress_PortValue{PortValue: port}}}}}}}
	if x.w >= 0 {
		e.LoadBalancingWeight = wrapperspb.UInt32(uint32(x.w))
	}
	return e
}

// listenerCfg builds the v2.Listener: stream filters of the registered marker types, `nf` network filters of the registered
// marker type in the first chain, idle timeout in seconds, default_read_buffer_size as the field an update does not copy,
// an unreadable certificate as the tls context the manager rejects. bind_port stays false: no socket is opened.
func listenerCfg(l lcfg) *v2.Listener {
	a, err := net.ResolveTCPAddr("tcp", l.addr)
	if err != nil {
		panic(err)
	}
	lc := &v2.Listener{Addr: a}
	lc.Name, lc.AddrConfig, lc.Network = l.name, l.addr, "tcp"
	lc.DefaultReadBufferSize = l.keep
	if l.idle > 0 {
		lc.ConnectionIdleTimeout = &api.DurationConfig{Duration: time.Duration(l.idle) * time.Second}
	}
	for _, t := range l.sf {
		lc.StreamFilters = append(lc.StreamFilters, v2.Filter{Type: t})
	}
	for i := 0; i < l.chains; i++ {
		fc := v2.FilterChain{}
		if i == 0 {
			for j := 0; j < l.nf; j++ {
				fc.Filters = append(fc.Filters, v2.Filter{Type: "verif_nf", Config: map[string]interface{}{"i": j}})
			}
			if !l.tlsOk {
				fc.TLSContexts = []v2.TLSConfig{{Status: true, CertChain: "/nonexistent/cert.pem", PrivateKey: "/nonexistent/key.pem"}}
			}
		}
		lc.FilterChains = append(lc.FilterChains, fc)
	}
	return lc
}

type cmFilter struct{}

func (cmFilter) OnCreated(types.ClusterConfigFactoryCb, types.ClusterHostFactoryCb) {}

type markFilter struct {
	api.StreamReceiverFilter
	typ string
}
type markFactory struct{ typ string }

func (f markFactory) CreateFilterChain(ctx context.Context, cb api.StreamFilterChainFactoryCallbacks) {
	cb.AddStreamReceiverFilter(&markFilter{typ: f.typ}, api.BeforeRoute)
}

type chainRecorder struct{ types []string }

func (r *chainRecorder) AddStreamSenderFilter(api.StreamSenderFilter, api.SenderFilterPhase) {}
func (r *chainRecorder) AddStreamReceiverFilter(f api.StreamReceiverFilter, p api.ReceiverFilterPhase) {
	if m, ok := f.(*markFilter); ok {
		r.types = append(r.types, m.typ)
	} else {
		r.types = append(r.types, "?")
	}
}
func (r *chainRecorder) AddStreamAccessLog(api.AccessLog) {}

type nfFactory struct{}

func (nfFactory) CreateFilterChain(context.Context, api.NetWorkFilterChainFactoryCallbacks) {}

func registerMarkers() {
	for _, t := range []string{"vfa", "vfb"} {
		t := t
		api.RegisterStream(t, func(map[string]interface{}) (api.StreamFilterChainFactory, error) { return markFactory{t}, nil })
	}
	api.RegisterNetwork("verif_nf", func(map[string]interface{}) (api.NetworkFilterChainFactory, error) { return nfFactory{}, nil })
}

func newServer() (types.ConnectionHandler, *server.ListenerAdapter) {
	server.ResetAdapter()
	srv := server.NewServer(server.NewConfig(&v2.ServerConfig{ServerName: "verif"}), cmFilter{}, cluster.NewClusterManagerSingleton(nil, nil, nil))
	return srv.Handler(), server.GetListenerAdapterInstance()
}

func dashJoin(xs []string) string {
	if len(xs) == 0 {
		return "-"
	}
	return strings.Join(xs, "+")
}

// obsListener: what new connections of the named listener are served with (stream-filter manager entry, network filter
// factories, idle timeout) and the listener's own config.
func obsListener(h types.ConnectionHandler, name string) string {
	l := h.FindListenerByName(name)
	if l == nil {
		return "absent"
	}
	info, ok := server.VerifListenerLive(h, name)
	if !ok {
		return "absent"
	}
	var live []string
	if f := streamfilter.GetStreamFilterManager().GetStreamFilterFactory(name); f != nil {
		r := &chainRecorder{}
		f.CreateFilterChain(context.Background(), r)
		live = r.types
	}
	idle := 0
	if info.IdleTimeoutSet {
		idle = int(info.IdleTimeout / time.Second)
	}
	cfg := l.Config()
	var csf []string
	for _, f := range cfg.StreamFilters {
		csf = append(csf, f.Type)
	}
	cnf, cidle := 0, 0
	if len(cfg.FilterChains) > 0 {
		cnf = len(cfg.FilterChains[0].Filters)
	}
	if cfg.ConnectionIdleTimeout != nil {
		cidle = int(cfg.ConnectionIdleTimeout.Duration / time.Second)
	}
	return fmt.Sprintf("%s|%s|%d|%d|%s|%d|%d|%d", l.Addr().String(), dashJoin(live), info.NetworkFilters, idle, dashJoin(csf), cnf, cidle, cfg.DefaultReadBufferSize)
}

type env struct {
	prefix string // real router name = prefix + canonical name
	rm     types.RouterManager
	cm     types.ClusterManager
	lh     types.ConnectionHandler
	la     *server.ListenerAdapter
}

func errTok(err error) string {
	if err != nil {
		return "err"
	}
	return "ok"
}

func loadAssignment(a assign) *ep.ClusterLoadAssignment {
	la := &ep.ClusterLoadAssignment{ClusterName: a.c}
	for i, l := range a.locs {
		le := &ep.LocalityLbEndpoints{Locality: &core.Locality{Zone: fmt.Sprintf("z%d", i)}, Priority: uint32(i)}
		for _, x := range l {
			le.LbEndpoints = append(le.LbEndpoints, lbEndpoint(x))
		}
		la.Endpoints = append(la.Endpoints, le)
	}
	return la
}

func xdsCluster(o op) *xcluster.Cluster {
	xc := &xcluster.Cluster{Name: o.c, LbPolicy: xcluster.Cluster_RANDOM,
		MaxRequestsPerConnection: wrapperspb.UInt32(o.tag), PerConnectionBufferLimitBytes: wrapperspb.UInt32(16384)}
	if o.eds {
		xc.ClusterDiscoveryType = &xcluster.Cluster_Type{Type: xcluster.Cluster_EDS}
	} else {
		xc.ClusterDiscoveryType = &xcluster.Cluster_Type{Type: xcluster.Cluster_STATIC}
	}
	if len(o.assigns) > 0 && len(o.assigns[0].locs) > 0 {
		xc.LoadAssignment = loadAssignment(o.assigns[0])
	}
	return xc
}

func (e *env) apply(o op) string {
	if o.via {
		ad := cluster.GetClusterMngAdapterInstance()
		switch o.kind {
		case "CP":
			return errTok(ad.TriggerClusterAddOrUpdate(clusterCfg(o.c, o.tag, o.cfgHosts)))
		case "CH":
			return errTok(ad.TriggerClusterAndHostsAddOrUpdate(clusterCfg(o.c, o.tag, o.cfgHosts), hostCfgs(o.hosts)))
		case "HU":
			return errTok(ad.TriggerClusterHostUpdate(o.c, hostCfgs(o.hosts)))
		case "HA":
			return errTok(ad.TriggerHostAppend(o.c, hostCfgs(o.hosts)))
		case "HR":
			return errTok(ad.TriggerHostDel(o.c, o.strs))
		case "CR":
			return errTok(ad.TriggerClusterDel(o.strs...))
		}
		panic("via " + o.kind)
	}
	switch o.kind {
	case "XC": // CDS add/update through the real conversion; reports nothing
		conv.NewConverter().ConvertUpdateClusters([]*xcluster.Cluster{xdsCluster(o)})
		return "ok"
	case "XD": // CDS delete through the real conversion; reports nothing
		conv.NewConverter().ConvertDeleteClusters([]*xcluster.Cluster{xdsCluster(o)})
		return "ok"
	case "RN":
		return errTok(e.rm.AddOrUpdateRouters(nil))
	case "RU":
		return errTok(e.rm.AddOrUpdateRouters(routerCfg(e.prefix+o.r, o.vhs)))
	case "RA":
		rt := o.rt.cfg()
		return errTok(e.rm.AddRoute(e.prefix+o.r, o.domain, &rt))
	case "RR":
		return errTok(e.rm.RemoveAllRoutes(e.prefix+o.r, o.domain))
	case "CP":
		return errTok(e.cm.AddOrUpdatePrimaryCluster(clusterCfg(o.c, o.tag, o.cfgHosts)))
	case "CH":
		return errTok(e.cm.AddOrUpdateClusterAndHost(clusterCfg(o.c, o.tag, o.cfgHosts), hostCfgs(o.hosts)))
	case "CN":
		c := clusterCfg(o.c, 1, nil)
		c.ClusterType = nilClusterType
		return errTok(e.cm.AddOrUpdatePrimaryCluster(c))
	case "HU":
		return errTok(e.cm.UpdateClusterHosts(o.c, hostCfgs(o.hosts)))
	case "HA":
		return errTok(e.cm.AppendClusterHosts(o.c, hostCfgs(o.hosts)))
	case "HR":
		return errTok(e.cm.RemoveClusterHosts(o.c, o.strs))
	case "CR":
		return errTok(e.cm.RemovePrimaryCluster(o.strs...))
	case "LA":
		return errTok(e.la.AddOrUpdateListener("", listenerCfg(o.lc)))
	case "LD":
		return errTok(e.la.DeleteListener("", o.r))
	case "XE":
		var las []*ep.ClusterLoadAssignment
		for _, a := range o.assigns {
			las = append(las, loadAssignment(a))
		}
		return errTok(conv.NewConverter().ConvertUpdateEndpoints(las))
	}
	panic("kind")
}

// ---------------------------------------------------------------- observation

var sampleHosts = []string{"a.b", "c.b", "x.y", "q.b", "A.B", "zz"}
var samplePaths = []string{"/", "/a", "/a/b", "/b"}

func obsRouters(rs types.Routers) string {
	var cells []string
	for _, h := range sampleHosts {
		for _, p := range samplePaths {
			ctx := variable.NewVariableContext(context.Background())
			variable.SetString(ctx, types.VarHost, h)
			variable.SetString(ctx, types.VarPath, p)
			var ids []string
			for _, r := range rs.MatchAllRoutes(ctx, protocol.CommonHeader{}) {
				ids = append(ids, r.RouteRule().ClusterName(ctx))
			}
			if len(ids) == 0 {
				cells = append(cells, "-")
			} else {
				cells = append(cells, strings.Join(ids, "+"))
			}
		}
	}
	return strings.Join(cells, ",")
}

func obsCluster(cm types.ClusterManager, name string) string {
	snap := cm.GetClusterSnapshot(context.Background(), name)
	if snap == nil {
		return "absent"
	}
	var hs []string
	snap.HostSet().Range(func(h types.Host) bool {
		hs = append(hs, fmt.Sprintf("%s~%s~%d", h.AddressString(), nameTok(h.Hostname()), h.Weight()))
		return true
	})
	s := "-"
	if len(hs) > 0 {
		s = strings.Join(hs, "+")
	}
	return fmt.Sprintf("%d|%s", snap.ClusterInfo().MaxRequestsPerConn(), s)
}

func joinObs(names []string, f func(string) string) string {
	if len(names) == 0 {
		return "-"
	}
	var p []string
	for _, n := range names {
		p = append(p, n+"@"+f(n))
	}
	return strings.Join(p, ";")
}

func uniqSorted(xs []string) []string {
	m := map[string]bool{}
	var out []string
	for _, x := range xs {
		if !m[x] {
			m[x] = true
			out = append(out, x)
		}
	}
	sort.Strings(out)
	return out
}

var histNo int

// runHistory applies the operations to fresh managers and emits the case line.
func runHistory(c *hx.Ctx, ops []op) {
	histNo++
	configmanager.Reset()
	cluster.NewClusterManagerSingleton(nil, nil, nil).Destroy()
	e := &env{prefix: fmt.Sprintf("h%d.", histNo), rm: router.GetRoutersMangerInstance(),
		cm: cluster.NewClusterManagerSingleton(nil, nil, nil)}
	e.lh, e.la = newServer()
	var toks, res, rnames, cnames, lnames []string
	for _, o := range ops {
		toks = append(toks, o.tok())
		var rtok string
		if msg, panicked := hx.Safe(func() { rtok = e.apply(o) }); panicked {
			rtok = "panic"
			if len(msg) > 40 {
				msg = msg[:40]
			}
			c.Count("panic:" + hx.Tok(msg))
		}
		res = append(res, rtok)
		switch o.kind {
		case "RU", "RA", "RR":
			rnames = append(rnames, o.r)
		case "CP", "CH", "CN", "HU", "HA", "HR", "XC", "XD":
			cnames = append(cnames, o.c)
		case "CR":
			cnames = append(cnames, o.strs...)
		case "XE":
			for _, a := range o.assigns {
				cnames = append(cnames, a.c)
			}
		case "LA":
			if o.lc.name == "" {
				lnames = append(lnames, o.lc.addr)
			} else {
				lnames = append(lnames, o.lc.name)
			}
		case "LD":
			lnames = append(lnames, o.r)
		}
		c.Count("op." + o.kind + "." + res[len(res)-1])
	}
	rnames, cnames, lnames = uniqSorted(rnames), uniqSorted(cnames), uniqSorted(lnames)

	// live observation
	liveR := joinObs(rnames, func(n string) string {
		w := e.rm.GetRouterWrapperByName(e.prefix + n)
		if w == nil {
			return "absent"
		}
		if rs := w.GetRouters(); rs != nil {
			return obsRouters(rs)
		}
		return "nil"
	})
	liveC := joinObs(cnames, func(n string) string { return obsCluster(e.cm, n) })
	liveL := joinObs(lnames, func(n string) string { return obsListener(e.lh, n) })

	// dump: the bytes MOSN persists (and hands to a new process on hot upgrade), parsed back as a start would
	raw, err := configmanager.InheritMosnconfig()
	if err != nil {
		panic(err)
	}
	var dumped v2.MOSNConfig
	if err := json.Unmarshal(raw, &dumped); err != nil {
		panic(err)
	}

	// rebuild routers with the real constructor
	dr := map[string]*v2.RouterConfiguration{}
	if len(dumped.Servers) > 0 {
		for _, rc := range dumped.Servers[0].Routers {
			if strings.HasPrefix(rc.RouterConfigName, e.prefix) {
				dr[strings.TrimPrefix(rc.RouterConfigName, e.prefix)] = rc
			} else {
				rnames = append(rnames, "?"+rc.RouterConfigName) // a router nobody asked for: reported as a difference
			}
		}
	}
	rebR := joinObs(rnames, func(n string) string {
		rc, ok := dr[n]
		if !ok {
			return "absent"
		}
		rs, err := router.NewRouters(rc)
		if err != nil || rs == nil {
			return "nil"
		}
		return obsRouters(rs)
	})

	// rebuild the cluster manager as a start does: ParseClusterConfig + NewClusterManagerSingleton
	e.cm.Destroy()
	configmanager.Reset()
	for _, dc := range dumped.ClusterManager.Clusters {
		found := false
		for _, n := range cnames {
			found = found || n == dc.Name
		}
		if !found {
			cnames = append(cnames, dc.Name)
		}
	}
	pcs, pmap := configmanager.ParseClusterConfig(dumped.ClusterManager.Clusters)
	fresh := cluster.NewClusterManagerSingleton(pcs, pmap, &dumped.ClusterManager)
	rebC := joinObs(cnames, func(n string) string { return obsCluster(fresh, n) })
	fresh.Destroy()

	// rebuild the listeners as a start does: ParseListenerConfig + AddOrUpdateListener on a fresh server
	fh, fa := newServer()
	if len(dumped.Servers) > 0 {
		for i := range dumped.Servers[0].Listeners {
			lc := configmanager.ParseListenerConfig(&dumped.Servers[0].Listeners[i], nil, nil)
			found := false
			for _, n := range lnames {
				found = found || n == lc.Name
			}
			if !found {
				lnames = append(lnames, lc.Name)
			}
			if err := fa.AddOrUpdateListener("", lc); err != nil {
				c.Count("rebuild.listener.refused")
			}
		}
	}
	rebL := joinObs(lnames, func(n string) string { return obsListener(fh, n) })

	r := "-"
	if len(res) > 0 {
		r = strings.Join(res, ",")
	}
	c.Emit("C12", strings.TrimSpace("hist "+strings.Join(toks, " ")), r+" "+liveR+" "+rebR+" "+liveC+" "+rebC+" "+liveL+" "+rebL)
	c.Count(fmt.Sprintf("len=%02d", len(ops)))
}

// ---------------------------------------------------------------- generator

var rnamePool = []string{"r1", "r2", "r3"}
var cnamePool = []string{"c1", "c2", "c3"}
var domPool = []string{"a.b", "c.b", "*.b", "*", "x.y", "*b", "q.b", "A.b", "*.y"}
var badDomPool = []string{"a*", "", "a.b", "*"} // malformed or (likely) duplicate
var lookupDomPool = []string{"a.b", "c.b", "q.b", "x.y", "zz", "A.B", "*", "*.b", "b"}
var addrPool = []string{"127.0.0.1:80", "127.0.0.1:8000", "127.0.0.1:8001", "127.0.0.1:81", "127.0.0.2:80", "10.0.0.1:9", "10.0.0.10:9", "10.0.0.2:9"}
var weightPool = []int{1, 1, 2, 3, 1, 128, 0, 129, 500}
var pfxPool = []string{"", "a", "ab", "b"}
var lnamePool = []string{"l1", "l2", ""}
var laddrPool = []string{"127.0.0.1:1001", "127.0.0.1:1002"}
var sfPool = [][]string{nil, {"vfa"}, {"vfb"}, {"vfa", "vfb"}, {"vfb", "vfa"}, {"vfa", "vfa"}}

type gen struct {
	c       *hx.Ctx
	rid     int
	routers map[string]bool
	clus    map[string]bool
	lst     map[string]string // listener name -> address it was created with
	bad     bool              // malformed stream: mostly invalid operations
}

func (g *gen) listener() lcfg {
	r := g.c.Rng
	l := lcfg{name: r.PickS(lnamePool), addr: r.PickS(laddrPool), chains: 1, sf: sfPool[r.Intn(len(sfPool))], nf: r.Intn(3),
		idle: r.Pick([]int{0, 0, 1, 2}), keep: r.Pick([]int{0, 1024, 2048}), tlsOk: true}
	key := l.name
	if key == "" {
		key = l.addr
	}
	if a, ok := g.lst[key]; ok && !g.bad && r.Chance(85) {
		l.addr = a // mostly a valid update: same address
	}
	pBad := 6
	if g.bad {
		pBad = 30
	}
	if r.Chance(pBad) {
		l.chains = r.Pick([]int{0, 2})
	}
	if r.Chance(pBad) {
		l.tlsOk = false
	}
	if _, ok := g.lst[key]; !ok && l.chains == 1 && l.tlsOk {
		g.lst[key] = l.addr
	}
	return l
}

func (g *gen) route() route {
	g.rid++
	valid := !g.c.Rng.Chance(8)
	if g.bad {
		valid = g.c.Rng.Chance(50)
	}
	return route{id: fmt.Sprintf("t%d", g.rid), pfx: g.c.Rng.PickS(pfxPool), valid: valid}
}

func (g *gen) vhosts() []vhost {
	r := g.c.Rng
	n := 1 + r.Intn(3)
	if r.Chance(6) {
		n = 0
	}
	used := map[string]bool{}
	var vs []vhost
	for i := 0; i < n; i++ {
		v := vhost{name: fmt.Sprintf("v%d", i)}
		nd := 1 + r.Intn(2)
		for j := 0; j < nd; j++ {
			d := r.PickS(domPool)
			if (g.bad && r.Chance(30)) || (!g.bad && r.Chance(3)) {
				d = r.PickS(badDomPool)
			} else {
				for k := 0; k < 8 && used[strings.ToLower(d)]; k++ {
					d = r.PickS(domPool)
				}
			}
			used[strings.ToLower(d)] = true
			v.doms = append(v.doms, d)
		}
		nr := r.Intn(4)
		for j := 0; j < nr; j++ {
			v.routes = append(v.routes, g.route())
		}
		vs = append(vs, v)
	}
	return vs
}

func (g *gen) hosts(max int) []host {
	r := g.c.Rng
	n := r.Intn(max + 1)
	var hs []host
	for i := 0; i < n; i++ {
		hs = append(hs, host{addr: r.PickS(addrPool), name: fmt.Sprintf("n%d", r.Intn(4)), w: uint32(r.Pick(weightPool))})
	}
	return hs
}

func pickKnown(r *hx.Rng, known map[string]bool, pool []string, pKnown int) string {
	var ks []string
	for _, p := range pool {
		if known[p] {
			ks = append(ks, p)
		}
	}
	if len(ks) > 0 && r.Chance(pKnown) {
		return r.PickS(ks)
	}
	return r.PickS(pool)
}

func (g *gen) op() op {
	r := g.c.Rng
	pk := 88
	if g.bad {
		pk = 25
	}
	kinds := []string{"RU", "RU", "RA", "RA", "RA", "RR", "CP", "CH", "CH", "HU", "HU", "HA", "HA", "HR", "HR", "CR", "XE", "XE", "RN", "CN",
		"LA", "LA", "LA", "LA", "LD", "XC", "XD"}
	if g.bad {
		kinds = append(kinds, "RN", "CN", "CR", "RA", "RR", "HR", "XE", "HU", "LA", "LD")
	}
	k := r.PickS(kinds)
	// mostly-valid stream: operations on clusters / routers that do not exist yet are mostly turned into creations
	if !g.bad && r.Chance(75) {
		switch k {
		case "HU", "HA", "HR", "XE", "CR":
			if len(g.clus) == 0 {
				k = r.PickS([]string{"CP", "CH", "CH"})
			}
		case "RA", "RR":
			if len(g.routers) == 0 {
				k = "RU"
			}
		}
	}
	via := r.Chance(40)
	switch k {
	case "XC":
		n := r.PickS(cnamePool)
		g.clus[n] = true
		a := assign{c: n}
		for j := r.Intn(4); j > 0; j-- {
			var l []xhost
			for m := r.Intn(3); m > 0; m-- {
				w := int64(-1)
				if r.Chance(60) {
					w = int64(r.Pick(weightPool))
				}
				l = append(l, xhost{addr: r.PickS(addrPool), w: w})
			}
			a.locs = append(a.locs, l)
		}
		return op{kind: k, c: n, tag: uint32(1 + r.Intn(5)), eds: r.Bool(), assigns: []assign{a}}
	case "XD":
		return op{kind: k, c: pickKnown(r, g.clus, cnamePool, pk), eds: r.Chance(70)}
	case "LA":
		return op{kind: k, lc: g.listener()}
	case "LD":
		var known []string
		for n := range g.lst {
			known = append(known, n)
		}
		sort.Strings(known)
		n := r.PickS([]string{"l1", "l2", "l3", "127.0.0.1:1001"})
		if len(known) > 0 && r.Chance(pk) {
			n = r.PickS(known)
		}
		delete(g.lst, n)
		return op{kind: k, r: n}
	case "RN":
		return op{kind: k}
	case "RU":
		n := r.PickS(rnamePool)
		g.routers[n] = true
		return op{kind: k, r: n, vhs: g.vhosts()}
	case "RA":
		return op{kind: k, r: pickKnown(r, g.routers, rnamePool, pk), domain: r.PickS(lookupDomPool), rt: g.route()}
	case "RR":
		return op{kind: k, r: pickKnown(r, g.routers, rnamePool, pk), domain: r.PickS(lookupDomPool)}
	case "CP":
		n := r.PickS(cnamePool)
		g.clus[n] = true
		o := op{kind: k, via: via, c: n, tag: uint32(1 + r.Intn(5))}
		if r.Chance(30) {
			o.cfgHosts = g.hosts(2)
		}
		return o
	case "CH":
		n := r.PickS(cnamePool)
		g.clus[n] = true
		o := op{kind: k, via: via, c: n, tag: uint32(1 + r.Intn(5)), hosts: g.hosts(4)}
		if r.Chance(75) {
			o.cfgHosts = o.hosts // the debug API / xDS pass cluster.Hosts as the hosts
		} else {
			o.cfgHosts = g.hosts(2)
		}
		return o
	case "CN":
		return op{kind: k, c: r.PickS(cnamePool)}
	case "HU", "HA":
		return op{kind: k, via: via, c: pickKnown(r, g.clus, cnamePool, pk), hosts: g.hosts(4)}
	case "HR":
		n := r.Intn(4)
		var as []string
		for i := 0; i < n; i++ {
			as = append(as, r.PickS(addrPool))
		}
		if r.Chance(15) {
			as = append(as, "127.0.0.1:9999")
		}
		return op{kind: k, via: via, c: pickKnown(r, g.clus, cnamePool, pk), strs: as}
	case "CR":
		n := 1 + r.Intn(2)
		if r.Chance(5) {
			n = 0
		}
		var ns []string
		for i := 0; i < n; i++ {
			ns = append(ns, pickKnown(r, g.clus, cnamePool, pk))
		}
		for _, x := range ns {
			delete(g.clus, x) // may fail, bookkeeping is only a hint
		}
		return op{kind: k, via: via, strs: ns}
	case "XE":
		na := 1
		if r.Chance(15) {
			na = 2
		}
		var as []assign
		for i := 0; i < na; i++ {
			a := assign{c: pickKnown(r, g.clus, cnamePool, pk)}
			nl := 1 + r.Intn(3)
			if r.Chance(8) {
				nl = 0
			}
			for j := 0; j < nl; j++ {
				var l []xhost
				for m := r.Intn(4); m > 0; m-- {
					w := int64(-1)
					if r.Chance(60) {
						w = int64(r.Pick(weightPool))
					}
					l = append(l, xhost{addr: r.PickS(addrPool), w: w})
				}
				a.locs = append(a.locs, l)
			}
			as = append(as, a)
		}
		return op{kind: k, assigns: as}
	}
	panic(k)
}

func (g *gen) history(n int) []op {
	g.routers, g.clus, g.lst = map[string]bool{}, map[string]bool{}, map[string]string{}
	var ops []op
	for len(ops) < n {
		o := g.op()
		ops = append(ops, o)
		if len(ops) < n && g.c.Rng.Chance(10) { // repeated operation
			ops = append(ops, o)
		}
	}
	return ops
}

// fixed boundary histories (replayed first on every run)
func corpus() [][]op {
	h := func(a string, w uint32) host { return host{addr: a, name: "n", w: w} }
	x := func(a string, w int64) xhost { return xhost{addr: a, w: w} }
	vh := []vhost{{name: "v0", doms: []string{"a.b"}, routes: []route{{"t1", "", true}}}, {name: "v1", doms: []string{"*"}}}
	la := lcfg{name: "l1", addr: "127.0.0.1:1001", chains: 1, sf: []string{"vfa"}, nf: 1, keep: 1024, tlsOk: true}
	lb := la
	lb.sf, lb.idle, lb.keep, lb.nf = []string{"vfb", "vfa"}, 2, 2048, 2
	lbadAddr, lbadTLS, lbadChains, lnoName := lb, lb, lb, la
	lbadAddr.addr, lbadAddr.sf = "127.0.0.1:1002", nil
	lbadTLS.tlsOk, lbadTLS.sf, lbadTLS.nf = false, []string{"vfb"}, 0
	lbadChains.chains = 2
	lnoName.name = ""
	return [][]op{
		{},
		{{kind: "RN"}},
		// listeners: add, update (idle timeout), rejected updates change nothing, unnamed listener, delete removes the dumped config
		{{kind: "LA", lc: la}, {kind: "LA", lc: lb}, {kind: "LA", lc: lbadAddr}},
		{{kind: "LA", lc: la}, {kind: "LA", lc: lb}, {kind: "LA", lc: lbadTLS}, {kind: "LA", lc: lbadChains}, {kind: "LA", lc: lnoName}, {kind: "LD", r: "l1"}},
		{{kind: "LA", lc: lbadTLS}, {kind: "LD", r: "l1"}, {kind: "LA", lc: la}, {kind: "LD", r: "l1"}, {kind: "LD", r: "l1"}},
		// multi-locality assignment: union, not the last locality (DESIGN.md section 6 row 12)
		{{kind: "CP", c: "c1", tag: 1}, {kind: "XE", assigns: []assign{{c: "c1", locs: [][]xhost{
			{x("127.0.0.1:8000", 1), x("127.0.0.1:8001", -1)}, {x("127.0.0.2:80", 500)}, {x("127.0.0.1:8000", 3), x("10.0.0.1:9", 0)}}}}}},
		{{kind: "CP", c: "c1", tag: 1}, {kind: "HU", c: "c1", hosts: []host{h("127.0.0.1:80", 1)}}, {kind: "XE", assigns: []assign{{c: "c1"}}}},
		// host inheritance, append order, sorted removal
		{{kind: "CH", c: "c1", tag: 1, hosts: []host{h("127.0.0.1:8000", 1), h("127.0.0.1:80", 0)}}, {kind: "CP", c: "c1", tag: 2, cfgHosts: []host{h("10.0.0.1:9", 1)}},
			{kind: "HA", c: "c1", hosts: []host{h("127.0.0.1:80", 129), h("10.0.0.10:9", 1)}}, {kind: "HR", c: "c1", strs: []string{"127.0.0.1:8000", "1.1.1.1:1"}}},
		{{kind: "CP", c: "c1", tag: 1}, {kind: "CP", c: "c2", tag: 1}, {kind: "CR", strs: []string{"c1", "c3"}}, {kind: "CR", strs: []string{"c1", "c1"}}, {kind: "HU", c: "c1"}},
		// routers: add with an invalid config stores nil routers; update with an invalid config is refused
		{{kind: "RU", r: "r1", vhs: nil}, {kind: "RA", r: "r1", domain: "a.b", rt: route{"t2", "a", true}}, {kind: "RU", r: "r1", vhs: vh},
			{kind: "RU", r: "r1", vhs: []vhost{{name: "v0", doms: []string{"a*"}}}}, {kind: "RA", r: "r1", domain: "zz", rt: route{"t3", "a", true}},
			{kind: "RA", r: "r1", domain: "a.b", rt: route{"t4", "", false}}, {kind: "RR", r: "r1", domain: "a.b"}, {kind: "RA", r: "r9", domain: "a.b", rt: route{"t5", "", true}}},
	}
}

// runConcurrent (support only; swap atomicity itself is trusted): lookups racing with updates of one router and one cluster
// must always see one of the configurations that was installed as a whole — never a mixture, never a failure, never a panic;
// the host a snapshot's load balancer picks must belong to that snapshot's host set.
func runConcurrent(c *hx.Ctx, round int) {
	configmanager.Reset()
	cluster.NewClusterManagerSingleton(nil, nil, nil).Destroy()
	cm := cluster.NewClusterManagerSingleton(nil, nil, nil)
	rm := router.GetRoutersMangerInstance()
	rname, cname := fmt.Sprintf("conc%d.%d", c.Seed, round), "cc"
	mk := func(ids ...string) []vhost {
		v := vhost{name: "v", doms: []string{"*"}}
		for _, id := range ids {
			v.routes = append(v.routes, route{id: id, valid: true})
		}
		return []vhost{v}
	}
	cfgA, cfgB := mk("a1", "a2"), mk("b1", "b2", "b3")
	allowedR := map[string]bool{"a1+a2": true, "a1+a2+ax": true, "b1+b2+b3": true, "-": true} // "-": RemoveAllRoutes on B
	hs := func(ports ...int) []host {
		var out []host
		for _, p := range ports {
			out = append(out, host{addr: fmt.Sprintf("127.0.0.1:%d", p), name: "n", w: 1})
		}
		return out
	}
	h1, h2 := hs(7001, 7002), hs(7003, 7004, 7005)
	allowedC := map[string]bool{"7001,7002": true, "7003,7004,7005": true, "7009,7001,7002": true, "7002": true}
	rm.AddOrUpdateRouters(routerCfg(rname, cfgA))
	cm.AddOrUpdateClusterAndHost(clusterCfg(cname, 1, nil), hostCfgs(h1))

	var stop, mixed, failed, panics, lookups int64
	var wg sync.WaitGroup
	reader := func() {
		defer wg.Done()
		defer func() {
			if r := recover(); r != nil {
				atomic.AddInt64(&panics, 1)
			}
		}()
		for atomic.LoadInt64(&stop) == 0 {
			atomic.AddInt64(&lookups, 1)
			w := rm.GetRouterWrapperByName(rname)
			if w == nil || w.GetRouters() == nil {
				atomic.AddInt64(&failed, 1)
				continue
			}
			ctx := variable.NewVariableContext(context.Background())
			variable.SetString(ctx, types.VarHost, "a.b")
			variable.SetString(ctx, types.VarPath, "/")
			var ids []string
			for _, r := range w.GetRouters().MatchAllRoutes(ctx, protocol.CommonHeader{}) {
				ids = append(ids, r.RouteRule().ClusterName(ctx))
			}
			if !allowedR[dashJoin(ids)] {
				atomic.AddInt64(&mixed, 1)
			}
			snap := cm.GetClusterSnapshot(context.Background(), cname)
			if snap == nil {
				atomic.AddInt64(&failed, 1)
				continue
			}
			var ports []string
			set := map[string]bool{}
			snap.HostSet().Range(func(h types.Host) bool {
				a := h.AddressString()
				ports = append(ports, a[strings.LastIndex(a, ":")+1:])
				set[a] = true
				return true
			})
			if !allowedC[strings.Join(ports, ",")] {
				atomic.AddInt64(&mixed, 1)
			}
			if h := snap.LoadBalancer().ChooseHost(nil); h == nil || !set[h.AddressString()] {
				atomic.AddInt64(&mixed, 1)
			}
		}
	}
	for i := 0; i < 4; i++ {
		wg.Add(1)
		go reader()
	}
	n := c.N(300, 3000)
	for i := 0; i < n; i++ {
		switch i % 6 {
		case 0:
			rm.AddOrUpdateRouters(routerCfg(rname, cfgB))
			cm.UpdateClusterHosts(cname, hostCfgs(h2))
		case 1:
			rm.RemoveAllRoutes(rname, "a.b")
			cm.AddOrUpdatePrimaryCluster(clusterCfg(cname, 2, nil))
		case 2:
			rm.AddOrUpdateRouters(routerCfg(rname, cfgA))
			cm.UpdateClusterHosts(cname, hostCfgs(h1))
		case 3:
			rt := route{id: "ax", valid: true}.cfg()
			rm.AddRoute(rname, "a.b", &rt)
			cm.AppendClusterHosts(cname, hostCfgs(hs(7009)))
		case 4:
			rm.AddOrUpdateRouters(routerCfg(rname, cfgA))
			cm.RemoveClusterHosts(cname, []string{"127.0.0.1:7009", "127.0.0.1:7001"})
		case 5:
			cm.AddOrUpdateClusterAndHost(clusterCfg(cname, 1, nil), hostCfgs(h1))
		}
	}
	atomic.StoreInt64(&stop, 1)
	wg.Wait()
	verdict := "ok"
	if mixed > 0 || failed > 0 || panics > 0 {
		verdict = fmt.Sprintf("bad:mixed=%d,failed=%d,panics=%d", mixed, failed, panics)
	}
	c.Emit("C12", fmt.Sprintf("conc %d %d", round, n), verdict)
	c.Count("conc.rounds")
	if lookups > 0 {
		c.Count("conc.lookups>0")
	}
}

// mix64 (splitmix finalizer): hx.NewRng(seed) starts consecutive seeds one step apart on the same stream, so the derived
// thorough seeds (seed*1000+k) would re-align and repeat each other's histories; scatter them first.
func mix64(z uint64) uint64 {
	z = (z ^ (z >> 30)) * 0xBF58476D1CE4E5B9
	z = (z ^ (z >> 27)) * 0x94D049BB133111EB
	return z ^ (z >> 31)
}

func Run(c *hx.Ctx) {
	c.Rng = hx.NewRng(mix64(c.Seed + 0x632BE59BD9B4E019))
	mlog.DefaultLogger.Toggle(true)
	mlog.StartLogger.Toggle(true)
	cluster.RegisterClusterType(nilClusterType, func(v2.Cluster) types.Cluster { return nil })
	registerMarkers()
	for _, h := range corpus() {
		runHistory(c, h)
		c.Count("stream=corpus")
	}
	// one multi-address RemoveClusterHosts / TriggerHostDel call per case (rm.go)
	if c.Thorough() {
		runRmAll(c, 6, 0)
	} else {
		runRmAll(c, 4, 300)
	}
	// the persisted file: updates at every point of a dump round, failing writes (dump.go)
	if c.Thorough() {
		runDumpAll(c, 4, 2000, 10)
	} else {
		runDumpAll(c, 3, 200, 8)
	}
	for round := 0; round < c.N(3, 10); round++ {
		runConcurrent(c, round)
	}
	// two concurrent mutators of one router under a deterministic scheduler, every schedule (rlock.go)
	runRlockAll(c)
	// lookups of one virtual host parked mid-walk against the in-place single-route updates; the fast index (vhtable.go)
	runVhtAll(c)
	// routers loaded from a directory / from static JSON / built by code, dump -> reload through the real loader (mode.go)
	runModeAll(c)
	// circuit-breaker thresholds of an updated cluster: live vs a fresh cluster from the dump after every step (rsrc.go)
	runRsrcAll(c)
	// removals down to zero and re-additions, dump after every step into the same directories, reload (dirhist.go)
	runDirAll(c)
	g := &gen{c: c}
	n := c.N(5000, 40000)
	for i := 0; i < n; i++ {
		g.bad = i%6 == 5
		l := 1 + c.Rng.Intn(15)
		if i%40 == 0 {
			l = 15
		}
		runHistory(c, g.history(l)[:l])
		if g.bad {
			c.Count("stream=malformed")
		} else {
			c.Count("stream=valid")
		}
	}
}
