//go:build verif

package c12

// `rlock` cases: TWO mutators of one router of the real router manager (AddOrUpdateRouters / AddRoute / RemoveAllRoutes, every
// pair of kinds) run concurrently under a deterministic scheduler. Each mutator runs in its own goroutine; the verif yield hook
// of pkg/router (after the wrapper lookup, after NewRouters, at the entry of routersImpl.AddRoute / RemoveAllRoutes and before
// the virtual host is modified, before configmanager.SetRouter) parks the goroutine and hands control to the scheduler, which
// releases ONE parked goroutine at a time. A released goroutine that neither reaches its next yield point nor returns within a
// short time is blocked on a lock of the manager: it is treated as serialized (it stays released and arrives when the lock
// becomes free), as harness/c06/cwrr.go does. A schedule is the list of choices made at the decision points (both goroutines
// parked); all schedules are enumerated depth first by re-execution (each run starts from a fresh router name).
// Line: `rlock <P/vhs | N> <opA> <opB> <forced choices | -> => <resA>,<resB> <live routes> <routes rebuilt from the dump> <trace>`.
// The trace (which yield points were passed in which order, which goroutine was found blocked) is informative only.

import (
	"encoding/json"
	"fmt"
	"runtime"
	"strconv"
	"strings"
	"sync"
	"time"

	v2 "mosn.io/mosn/pkg/config/v2"
	"mosn.io/mosn/pkg/configmanager"
	"mosn.io/mosn/pkg/router"
	"verif/harness/hx"
)

const (
	rlArrive = 15 * time.Millisecond // how long a released goroutine is given to reach its next yield point before it counts as blocked
	rlGrace  = 2 * time.Millisecond  // a goroutine that was blocked is given this long to arrive after the other one moved
	rlStuck  = 20 * time.Second      // some goroutine must make progress within this time
)

func rlGoid() uint64 {
	var buf [64]byte
	n := runtime.Stack(buf[:], false)
	f := strings.Fields(string(buf[:n]))
	if len(f) < 2 {
		return 0
	}
	id, _ := strconv.ParseUint(f[1], 10, 64)
	return id
}

type rlEvent struct {
	th   int
	site string
	fin  bool
	res  string
}

type rlRun struct {
	choices []int  // the choice made at every decision point
	res     [2]string
	trace   []string
	stuck   bool
}

// rlExec runs the two operations on router `name` under the schedule `forced` (choices at the first decision points; afterwards
// the lowest parked goroutine goes on).
func rlExec(e *env, ops [2]op, forced []int) rlRun {
	var gids sync.Map
	events := make(chan rlEvent, 16)
	resume := [2]chan struct{}{make(chan struct{}), make(chan struct{})}
	router.VerifSetRouterYield(func(site string) {
		v, ok := gids.Load(rlGoid())
		if !ok {
			return
		}
		th := v.(int)
		events <- rlEvent{th: th, site: site}
		<-resume[th]
	})
	defer router.VerifSetRouterYield(nil)
	for th := 0; th < 2; th++ {
		th := th
		go func() {
			gids.Store(rlGoid(), th)
			events <- rlEvent{th: th, site: "start"}
			<-resume[th]
			var rtok string
			if msg, panicked := hx.Safe(func() { rtok = e.apply(ops[th]) }); panicked {
				rtok = "panic"
				_ = msg
			}
			events <- rlEvent{th: th, fin: true, res: rtok}
		}()
	}
	var run rlRun
	parked, finished, flying := [2]bool{}, [2]bool{}, [2]bool{}
	handle := func(ev rlEvent) {
		flying[ev.th] = false
		if ev.fin {
			finished[ev.th] = true
			run.res[ev.th] = ev.res
			run.trace = append(run.trace, fmt.Sprintf("%d:ret", ev.th))
		} else {
			parked[ev.th] = true
			run.trace = append(run.trace, fmt.Sprintf("%d:%s", ev.th, ev.site))
		}
	}
	// wait for an event of thread `want` (or of anybody when want < 0) for at most d; other events are handled on the way
	wait := func(want int, d time.Duration) bool {
		deadline := time.After(d)
		for {
			select {
			case ev := <-events:
				handle(ev)
				if want < 0 || ev.th == want {
					return true
				}
			case <-deadline:
				return false
			}
		}
	}
	flying[0], flying[1] = true, true
	for !(parked[0] && parked[1]) {
		if !wait(-1, rlStuck) {
			run.stuck = true
			return run
		}
	}
	run.trace = run.trace[:0]
	for !(finished[0] && finished[1]) {
		var cand []int
		for th := 0; th < 2; th++ {
			if parked[th] {
				cand = append(cand, th)
			}
		}
		if len(cand) == 0 {
			// every goroutine that has not returned is released and on its way (blocked on a lock, or slow)
			if !wait(-1, rlStuck) {
				run.stuck = true
				break
			}
			continue
		}
		pick := cand[0]
		if len(cand) == 2 {
			dp := len(run.choices)
			if dp < len(forced) {
				pick = forced[dp]
			}
			run.choices = append(run.choices, pick)
		}
		parked[pick] = false
		flying[pick] = true
		resume[pick] <- struct{}{}
		if !wait(pick, rlArrive) {
			run.trace = append(run.trace, fmt.Sprintf("%d:blocked", pick))
		}
		// a goroutine found blocked earlier arrives now if the lock it waited for was released
		other := 1 - pick
		if flying[other] && !flying[pick] {
			wait(other, rlGrace)
		}
	}
	if run.stuck {
		// never expected: let whatever is parked run to its end
		go func() {
			for {
				select {
				case resume[0] <- struct{}{}:
				case resume[1] <- struct{}{}:
				case <-events:
				case <-time.After(rlStuck):
					return
				}
			}
		}()
		time.Sleep(50 * time.Millisecond)
	}
	return run
}

type rlCase struct {
	present bool
	init    []vhost
	ops     [2]op
}

func (k rlCase) tok() string {
	it := "N"
	if k.present {
		var p []string
		for _, v := range k.init {
			p = append(p, v.tok())
		}
		it = "P/" + strings.Join(p, ",")
	}
	return "rlock " + it + " " + k.ops[0].tok() + " " + k.ops[1].tok()
}

// rlObserve: live routes of router r and the routes rebuilt from the dumped configuration
func rlObserve(e *env, r string) (string, string) {
	live := "absent"
	if w := e.rm.GetRouterWrapperByName(e.prefix + r); w != nil {
		live = "nil"
		if rs := w.GetRouters(); rs != nil {
			live = obsRouters(rs)
		}
	}
	reb := "absent"
	raw, err := configmanager.InheritMosnconfig()
	if err != nil {
		panic(err)
	}
	var dumped v2.MOSNConfig
	if err := json.Unmarshal(raw, &dumped); err != nil {
		return live, "loaderr"
	}
	if len(dumped.Servers) > 0 {
		for _, rc := range dumped.Servers[0].Routers {
			if rc.RouterConfigName == e.prefix+r {
				reb = "nil"
				if rs, err := router.NewRouters(rc); err == nil && rs != nil {
					reb = obsRouters(rs)
				}
			}
		}
	}
	return live, reb
}

// rlExplore enumerates the schedules of one case depth first (at most `budget` runs) and emits one line per run.
func rlExplore(c *hx.Ctx, k rlCase, budget int) {
	stack := [][]int{{}}
	runs := 0
	for len(stack) > 0 && runs < budget {
		forced := stack[len(stack)-1]
		stack = stack[:len(stack)-1]
		histNo++
		configmanager.Reset()
		e := &env{prefix: fmt.Sprintf("h%d.", histNo), rm: router.GetRoutersMangerInstance()}
		if k.present {
			e.rm.AddOrUpdateRouters(routerCfg(e.prefix+"r1", k.init))
		}
		run := rlExec(e, k.ops, forced)
		runs++
		live, reb := rlObserve(e, "r1")
		ft := "-"
		if len(forced) > 0 {
			var p []string
			for _, x := range forced {
				p = append(p, fmt.Sprint(x))
			}
			ft = strings.Join(p, "")
		}
		tr := "-"
		if len(run.trace) > 0 {
			tr = strings.Join(run.trace, ",")
		}
		res := run.res[0] + "," + run.res[1]
		if run.stuck {
			res = "stuck,stuck"
			c.Count("rlock.stuck")
		}
		c.Emit("C12", k.tok()+" "+ft, res+" "+live+" "+reb+" "+tr)
		c.Count("rlock.pair=" + k.ops[0].kind + "+" + k.ops[1].kind)
		if strings.Contains(tr, "blocked") {
			c.Count("rlock.run.with_blocked_goroutine")
		} else {
			c.Count("rlock.run.no_blocking")
		}
		for i := len(run.choices) - 1; i >= len(forced); i-- {
			alt := append(append([]int{}, run.choices[:i]...), 1-run.choices[i])
			stack = append(stack, alt)
		}
	}
	if len(stack) > 0 {
		c.Count("rlock.case.budget_exhausted")
	} else {
		c.Count("rlock.case.all_schedules")
	}
	c.Count(fmt.Sprintf("rlock.case.present=%v", k.present))
}

func runRlockAll(c *hx.Ctx) {
	r := c.Rng.Fork()
	rt := func(id, pfx string) route { return route{id: id, pfx: pfx, valid: true} }
	base := []vhost{{name: "v0", doms: []string{"a.b"}, routes: []route{rt("x", "")}}, {name: "v1", doms: []string{"*"}}}
	updA := []vhost{{name: "v0", doms: []string{"a.b"}, routes: []route{rt("u", "")}}}
	updB := []vhost{{name: "w0", doms: []string{"c.b"}, routes: []route{rt("p", "a")}}, {name: "w1", doms: []string{"a.b", "*"}, routes: []route{rt("q", "")}}}
	bad := []vhost{{name: "v0", doms: []string{"a*"}}}
	au := func(v []vhost) op { return op{kind: "RU", r: "r1", vhs: v} }
	ar := func(d, id string) op { return op{kind: "RA", r: "r1", domain: d, rt: rt(id, "")} }
	rr := func(d string) op { return op{kind: "RR", r: "r1", domain: d} }
	// fixed cases first: every pair of kinds on an existing router and on a router that does not exist yet
	var cases []rlCase
	pairs := [][2]op{
		{ar("a.b", "y"), au(updA)}, {au(updA), ar("a.b", "y")}, {au(updA), au(updB)}, {rr("a.b"), au(updA)}, {ar("a.b", "y"), rr("a.b")},
		{ar("a.b", "y"), ar("zz", "z")}, {rr("a.b"), rr("*")}, {au(updB), ar("a.b", "y")}, {au(bad), ar("a.b", "y")},
		{au(updA), rr("a.b")},
	}
	for _, p := range pairs {
		cases = append(cases, rlCase{present: true, init: base, ops: p})
	}
	for _, p := range [][2]op{{au(updA), au(updB)}, {au(updA), ar("a.b", "y")}, {rr("a.b"), au(updB)}, {au(bad), au(updA)}} {
		cases = append(cases, rlCase{present: false, ops: p})
	}
	for _, k := range cases {
		rlExplore(c, k, c.N(40, 400))
		c.Count("rlock.stream=fixed")
	}
	// generated cases: initial configuration and operations from the history generator
	g := &gen{c: c, routers: map[string]bool{"r1": true}, clus: map[string]bool{}, lst: map[string]string{}}
	mk := func() op {
		switch r.Intn(4) {
		case 0, 1:
			return op{kind: "RU", r: "r1", vhs: g.vhosts()}
		case 2:
			return op{kind: "RA", r: "r1", domain: r.PickS(lookupDomPool), rt: g.route()}
		default:
			return op{kind: "RR", r: "r1", domain: r.PickS(lookupDomPool)}
		}
	}
	for i := 0; i < c.N(10, 80); i++ {
		g.bad = i%5 == 4
		k := rlCase{present: !r.Chance(20), ops: [2]op{mk(), mk()}}
		if k.present {
			k.init = g.vhosts()
		}
		rlExplore(c, k, c.N(12, 60))
		c.Count("rlock.stream=generated")
	}
}
