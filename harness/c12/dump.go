//go:build verif

package c12

// `dump` cases: the persisted configuration file. With the `auto_config` feature on, every mutator of the effective config
// requests a dump; configmanager.DumpConfig (one round of DumpConfigHandler) takes the request, snapshots the effective config
// and writes the file. A script is a sequence of updates between rounds (U) and rounds (R<n|a|b><o|f>): one update is applied
// through the real managers at a yield point INSIDE the round — a: after the request was taken, before the snapshot; b: after
// the snapshot, before the file write (verif hook configmanager.VerifSetDumpYield) — and the write is made to fail (f) by
// pointing the dump at an unwritable path. After every round: the version held by the file, the version of the effective
// config, and the dump-wanted flag.

import (
	"encoding/json"
	"fmt"
	"io/ioutil"
	"os"
	"path/filepath"
	"strings"

	v2 "mosn.io/mosn/pkg/config/v2"
	"mosn.io/mosn/pkg/configmanager"
	"mosn.io/mosn/pkg/router"
	"mosn.io/mosn/pkg/upstream/cluster"
	"verif/harness/hx"
)

type dumpItem struct {
	round bool
	pt    byte // 'n' none, 'a' before the snapshot, 'b' after the snapshot
	ok    bool // the file write succeeds
}

func (d dumpItem) tok() string {
	if !d.round {
		return "U"
	}
	w := "o"
	if !d.ok {
		w = "f"
	}
	return "R" + string(d.pt) + w
}

var dumpNo int

// dumpVersion: every update writes the running update counter into one of three places of the configuration; the version of
// a configuration is the largest counter it holds (0 = the initial cluster without hosts and no router).
func dumpVersion(raw []byte, routerName string) int {
	var cfg v2.MOSNConfig
	if err := json.Unmarshal(raw, &cfg); err != nil {
		return -1
	}
	ver := 0
	up := func(s string, pfx string) {
		var k int
		if strings.HasPrefix(s, pfx) {
			if _, err := fmt.Sscanf(s[len(pfx):], "%d", &k); err == nil && k > ver {
				ver = k
			}
		}
	}
	for _, cl := range cfg.ClusterManager.Clusters {
		if cl.Name != "dv" {
			continue
		}
		if int(cl.MaxRequestPerConn) > ver {
			ver = int(cl.MaxRequestPerConn)
		}
		for _, h := range cl.Hosts {
			up(h.Hostname, "n")
		}
	}
	if len(cfg.Servers) > 0 {
		for _, r := range cfg.Servers[0].Routers {
			if r == nil || r.RouterConfigName != routerName {
				continue
			}
			for _, vh := range r.VirtualHosts {
				for _, rt := range vh.Routers {
					up(rt.Route.ClusterName, "t")
				}
			}
		}
	}
	return ver
}

func runDump(c *hx.Ctx, dir string, items []dumpItem) {
	dumpNo++
	configmanager.Reset()
	cluster.NewClusterManagerSingleton(nil, nil, nil).Destroy()
	cm := cluster.NewClusterManagerSingleton(nil, nil, nil)
	rm := router.GetRoutersMangerInstance()
	rname := fmt.Sprintf("d%d.dr", dumpNo)
	good := filepath.Join(dir, fmt.Sprintf("d%d.json", dumpNo))
	bad := filepath.Join(dir, "plainfile", "x.json") // its parent is a regular file: every write fails
	configmanager.VerifSetDumpPath(good)
	if err := cm.AddOrUpdatePrimaryCluster(clusterCfg("dv", 0, nil)); err != nil {
		panic(err)
	}
	// bring the file to version 0
	configmanager.VerifSetDumpYield(nil)
	configmanager.DumpLock()
	configmanager.DumpConfig()
	configmanager.DumpUnlock()
	configmanager.VerifResetDumpWanted()

	ver := 0
	update := func() {
		ver++
		switch c.Rng.Intn(3) {
		case 0:
			if err := cm.AddOrUpdatePrimaryCluster(clusterCfg("dv", uint32(ver), nil)); err != nil {
				panic(err)
			}
			c.Count("dump.update=cluster")
		case 1:
			if err := cm.UpdateClusterHosts("dv", hostCfgs([]host{{addr: "127.0.0.1:80", name: fmt.Sprintf("n%d", ver), w: 1}})); err != nil {
				panic(err)
			}
			c.Count("dump.update=hosts")
		default:
			if err := rm.AddOrUpdateRouters(routerCfg(rname, []vhost{{name: "v0", doms: []string{"*"}, routes: []route{{id: fmt.Sprintf("t%d", ver), valid: true}}}})); err != nil {
				panic(err)
			}
			c.Count("dump.update=router")
		}
	}
	var toks, obs []string
	for _, it := range items {
		toks = append(toks, it.tok())
		if !it.round {
			update()
			continue
		}
		if it.ok {
			configmanager.VerifSetDumpPath(good)
		} else {
			configmanager.VerifSetDumpPath(bad)
		}
		injected := false
		configmanager.VerifSetDumpYield(func(site int) {
			if injected {
				return
			}
			if (it.pt == 'a' && site == 1) || (it.pt == 'b' && site == 2) {
				injected = true
				update()
			}
		})
		configmanager.DumpLock()
		configmanager.DumpConfig()
		configmanager.DumpUnlock()
		configmanager.VerifSetDumpYield(nil)
		if it.pt != 'n' {
			if injected {
				c.Count("dump.inject." + string(it.pt) + "=reached")
			} else {
				c.Count("dump.inject." + string(it.pt) + "=round-had-nothing-to-do")
			}
		}
		fileVer := -1
		if raw, err := ioutil.ReadFile(good); err == nil {
			fileVer = dumpVersion(raw, rname)
		}
		liveRaw, err := configmanager.InheritMosnconfig()
		if err != nil {
			panic(err)
		}
		liveVer := dumpVersion(liveRaw, rname)
		if liveVer != ver {
			panic(fmt.Sprintf("dump harness: effective config at version %d after %d updates", liveVer, ver))
		}
		w := 0
		if configmanager.VerifDumpWanted() {
			w = 1
		}
		obs = append(obs, fmt.Sprintf("%d/%d/%d", fileVer, liveVer, w))
		c.Count("dump.round=" + it.tok())
	}
	cm.Destroy()
	os.Remove(good)
	os.Remove(good + ".tmp")
	o := "-"
	if len(obs) > 0 {
		o = strings.Join(obs, " ")
	}
	c.Emit("C12", strings.TrimSpace("dump "+strings.Join(toks, " ")), o)
	c.Count(fmt.Sprintf("dump.len=%02d", len(items)))
}

var dumpAlphabet = []dumpItem{{}, {true, 'n', true}, {true, 'n', false}, {true, 'a', true}, {true, 'a', false}, {true, 'b', true}, {true, 'b', false}}

// runDumpAll: every script over the 7 items up to length `exh`, then `sample` random longer ones; every script is followed by
// one undisturbed round (the file must be current after it).
func runDumpAll(c *hx.Ctx, exh, sample, maxLen int) {
	(&configmanager.ConfigAutoFeature{}).InitFunc() // feature gate auto_config: on
	dir, err := ioutil.TempDir(".", "c12tmp")
	if err != nil {
		panic(err)
	}
	if dir, err = filepath.Abs(dir); err != nil {
		panic(err)
	}
	defer os.RemoveAll(dir)
	if err := ioutil.WriteFile(filepath.Join(dir, "plainfile"), []byte("x"), 0644); err != nil {
		panic(err)
	}
	final := dumpItem{true, 'n', true}
	for l := 0; l <= exh; l++ {
		total := 1
		for i := 0; i < l; i++ {
			total *= len(dumpAlphabet)
		}
		for code := 0; code < total; code++ {
			var items []dumpItem
			x := code
			for i := 0; i < l; i++ {
				items = append(items, dumpAlphabet[x%len(dumpAlphabet)])
				x /= len(dumpAlphabet)
			}
			runDump(c, dir, append(items, final))
		}
	}
	for i := 0; i < sample; i++ {
		l := exh + 1 + c.Rng.Intn(maxLen-exh)
		var items []dumpItem
		for j := 0; j < l; j++ {
			if c.Rng.Chance(40) { // a round has something to do only after an update
				items = append(items, dumpItem{})
			} else {
				items = append(items, dumpAlphabet[1+c.Rng.Intn(len(dumpAlphabet)-1)])
			}
		}
		runDump(c, dir, append(items, final))
	}
}
