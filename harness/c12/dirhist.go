//go:build verif

package c12

// `dirh` cases: update histories with REMOVALS down to zero and re-additions, persisted in directory mode (D:
// cluster_manager.clusters_configs + router_configs; P: the same with a stale file of an earlier run in both directories) or in
// static mode (S), with a dump after EVERY step into the SAME directories
// (configmanager.InheritMosnconfig = the persisted bytes; in directory mode it rewrites the directories), followed by a reload
// through the real loader (json.Unmarshal into v2.MOSNConfig: ClusterManagerConfig.UnmarshalJSON / RouterConfiguration.UnmarshalJSON
// read the directories) that is compared with the live state.
// Ops: C/<name>/<tag>  AddOrUpdatePrimaryCluster          X/<name>  RemovePrimaryCluster
//      V/<n:t+n:t|->   AddOrUpdateRouters(r1) with these virtual hosts (domain <n>.d, one route to cluster k<t>); in mode D the
//                      configuration carries the router's directory
// Observed per step: result | live clusters (name:MaxRequestsPerConn over the name pool, through the cluster manager) | clusters of
// fresh clusters built from the RELOADED configuration | live virtual hosts (MatchAllRoutes for <n>.d over the pool, through the
// live routers) | the same on routers built from the reloaded configuration (`loaderr` / `absent` / `nil`).

import (
	"context"
	"encoding/json"
	"fmt"
	"io/ioutil"
	"os"
	"path/filepath"
	"sort"
	"strings"

	v2 "mosn.io/mosn/pkg/config/v2"
	"mosn.io/mosn/pkg/configmanager"
	"mosn.io/mosn/pkg/protocol"
	"mosn.io/mosn/pkg/router"
	"mosn.io/mosn/pkg/types"
	"mosn.io/mosn/pkg/upstream/cluster"
	"mosn.io/pkg/variable"
	"verif/harness/hx"
)

type dirItem struct {
	name string
	tag  int
}
type dirOp struct {
	kind string // C X V
	name string
	tag  int
	vs   []dirItem
}

func (o dirOp) tok() string {
	switch o.kind {
	case "C":
		return fmt.Sprintf("C/%s/%d", o.name, o.tag)
	case "X":
		return "X/" + o.name
	}
	if len(o.vs) == 0 {
		return "V/-"
	}
	var p []string
	for _, v := range o.vs {
		p = append(p, fmt.Sprintf("%s:%d", v.name, v.tag))
	}
	return "V/" + strings.Join(p, "+")
}

var dirCPool = []string{"c1", "c2", "c3", "c4"}
var dirVPool = []string{"v1", "v2", "v3", "v4"}

func dirJoin(xs []string) string {
	if len(xs) == 0 {
		return "-"
	}
	sort.Strings(xs)
	return strings.Join(xs, "+")
}

func dirObsRouters(rs types.Routers) string {
	var out []string
	for _, n := range dirVPool {
		ctx := variable.NewVariableContext(context.Background())
		variable.SetString(ctx, types.VarHost, n+".d")
		variable.SetString(ctx, types.VarPath, "/")
		for _, r := range rs.MatchAllRoutes(ctx, protocol.CommonHeader{}) {
			out = append(out, n+":"+strings.TrimPrefix(r.RouteRule().ClusterName(ctx), "k"))
		}
	}
	return dirJoin(out)
}

func runDirHistory(c *hx.Ctx, mode string, ops []dirOp) {
	histNo++
	configmanager.Reset()
	cluster.NewClusterManagerSingleton(nil, nil, nil).Destroy()
	cm := cluster.NewClusterManagerSingleton(nil, nil, nil)
	rm := router.GetRoutersMangerInstance()
	rname := fmt.Sprintf("h%d.r1", histNo)
	base, err := ioutil.TempDir("", "verif-c12-dirh-")
	if err != nil {
		panic(err)
	}
	defer os.RemoveAll(base)
	cdir, rdir := "", ""
	if mode == "D" || mode == "P" {
		cdir, rdir = filepath.Join(base, "clusters"), filepath.Join(base, "routers")
		if mode == "P" {
			// files of an earlier run: a cluster / a virtual host that no longer exists
			os.MkdirAll(cdir, 0o755)
			os.MkdirAll(rdir, 0o755)
			cb, _ := json.Marshal(clusterCfg("c4", 9, nil))
			rt := v2.Router{}
			rt.Match.Prefix = "/"
			rt.Route.ClusterName = "k9"
			vb, _ := json.Marshal(v2.VirtualHost{Name: "v4", Domains: []string{"v4.d"}, Routers: []v2.Router{rt}})
			if ioutil.WriteFile(filepath.Join(cdir, "zz.json"), cb, 0o644) != nil || ioutil.WriteFile(filepath.Join(rdir, "zz.json"), vb, 0o644) != nil {
				panic("dirh: cannot write the stale files")
			}
		}
		// what start-up does with `cluster_manager.clusters_configs`: the path is remembered for every later dump
		configmanager.SetMosnConfig(&v2.MOSNConfig{ClusterManager: v2.ClusterManagerConfig{
			ClusterManagerConfigJson: v2.ClusterManagerConfigJson{ClusterConfigPath: cdir}}})
	}
	var toks, obs []string
	for _, o := range ops {
		toks = append(toks, o.tok())
		var res string
		if msg, panicked := hx.Safe(func() {
			switch o.kind {
			case "C":
				res = errTok(cm.AddOrUpdatePrimaryCluster(clusterCfg(o.name, uint32(o.tag), nil)))
			case "X":
				res = errTok(cm.RemovePrimaryCluster(o.name))
			case "V":
				rc := &v2.RouterConfiguration{}
				rc.RouterConfigName = rname
				rc.RouterConfigPath = rdir
				for _, v := range o.vs {
					rt := v2.Router{}
					rt.Match.Prefix = "/"
					rt.Route.ClusterName = fmt.Sprintf("k%d", v.tag)
					rc.VirtualHosts = append(rc.VirtualHosts, v2.VirtualHost{Name: v.name, Domains: []string{v.name + ".d"}, Routers: []v2.Router{rt}})
				}
				res = errTok(rm.AddOrUpdateRouters(rc))
			}
		}); panicked {
			res = "panic"
			if len(msg) > 40 {
				msg = msg[:40]
			}
			c.Count("dirh.panic:" + hx.Tok(msg))
		}
		c.Count("dirh.op." + o.kind + "." + res)
		// live
		var lc []string
		for _, n := range dirCPool {
			if snap := cm.GetClusterSnapshot(context.Background(), n); snap != nil {
				lc = append(lc, fmt.Sprintf("%s:%d", n, snap.ClusterInfo().MaxRequestsPerConn()))
			}
		}
		liveV := "absent"
		if w := rm.GetRouterWrapperByName(rname); w != nil {
			liveV = "nil"
			if rs := w.GetRouters(); rs != nil {
				liveV = dirObsRouters(rs)
			}
		}
		// dump into the same directories, reload through the real loader
		raw, err := configmanager.InheritMosnconfig()
		if err != nil {
			panic(err)
		}
		rebC, rebV := "loaderr", "loaderr"
		var dumped v2.MOSNConfig
		if err := json.Unmarshal(raw, &dumped); err == nil {
			var rcs []string
			if len(dumped.ClusterManager.Clusters) > 0 {
				pcs, _ := configmanager.ParseClusterConfig(dumped.ClusterManager.Clusters)
				for _, dc := range pcs {
					rcs = append(rcs, fmt.Sprintf("%s:%d", dc.Name, cluster.NewCluster(dc).Snapshot().ClusterInfo().MaxRequestsPerConn()))
				}
			}
			rebC = dirJoin(rcs)
			rebV = "absent"
			if len(dumped.Servers) > 0 {
				for _, rc := range dumped.Servers[0].Routers {
					if rc.RouterConfigName == rname {
						rebV = "nil"
						if rs, err := router.NewRouters(rc); err == nil && rs != nil {
							rebV = dirObsRouters(rs)
						}
					}
				}
			}
			if mode != "S" && dumped.ClusterManager.ClusterConfigPath == "" {
				c.Count("dirh.cluster-path-lost")
			}
		} else {
			c.Count("dirh.reload.failed")
		}
		if len(lc) == 0 {
			c.Count("dirh.step.clusters=0")
		} else {
			c.Count("dirh.step.clusters>0")
		}
		obs = append(obs, res+"|"+dirJoin(lc)+"|"+rebC+"|"+liveV+"|"+rebV)
	}
	cm.Destroy()
	// configmanager.Reset keeps the remembered clusters_configs path: clear it, or every later case dumps in directory mode
	configmanager.SetMosnConfig(&v2.MOSNConfig{})
	configmanager.Reset()
	c.Emit("C12", "dirh "+mode+" "+strings.Join(toks, " "), strings.Join(obs, " "))
	c.Count(fmt.Sprintf("dirh.len=%02d", len(ops)))
	c.Count("dirh.mode=" + mode)
}

func runDirAll(c *hx.Ctx) {
	r := c.Rng.Fork()
	ca := func(n string, t int) dirOp { return dirOp{kind: "C", name: n, tag: t} }
	cx := func(n string) dirOp { return dirOp{kind: "X", name: n} }
	vs := func(items ...dirItem) dirOp { return dirOp{kind: "V", vs: items} }
	fixed := [][]dirOp{
		{ca("c1", 1), cx("c1")},                                       // the LAST cluster removed
		{ca("c1", 1), cx("c1"), ca("c1", 2)},                          // … and added again
		{ca("c1", 1), ca("c2", 2), cx("c1"), cx("c2"), ca("c2", 3)},   // down to zero step by step and back
		{ca("c1", 1), ca("c2", 2), cx("c1")},                          // a removal that leaves a cluster
		{vs(dirItem{"v1", 1}, dirItem{"v2", 2}), vs()},                // all virtual hosts of a router removed
		{vs(dirItem{"v1", 1}), vs(), vs(dirItem{"v2", 2})},            // … and others added
		{vs(dirItem{"v1", 1}, dirItem{"v2", 2}), vs(dirItem{"v2", 3})}, // one virtual host removed, one updated
		{ca("c1", 1), vs(dirItem{"v1", 1}), cx("c1"), vs(), ca("c1", 1), vs(dirItem{"v1", 1})},
		{cx("c1"), vs()},
	}
	for _, mode := range []string{"D", "S", "P"} {
		for _, h := range fixed {
			runDirHistory(c, mode, h)
			c.Count("dirh.stream=fixed")
		}
	}
	n := c.N(150, 1500)
	for i := 0; i < n; i++ {
		mode := "D"
		if i%4 == 3 {
			mode = "S"
		} else if i%4 == 2 {
			mode = "P"
		}
		l := 2 + r.Intn(9)
		small := r.Intn(2) == 0 // half of the histories over 1-2 names: the sets become empty often
		cp, vp := dirCPool, dirVPool
		if small {
			cp, vp = dirCPool[:1+r.Intn(2)], dirVPool[:1+r.Intn(2)]
		}
		present := map[string]bool{}
		var ops []dirOp
		for len(ops) < l {
			switch k := r.Intn(10); {
			case k < 4:
				o := ca(r.PickS(cp), 1+r.Intn(5))
				present[o.name] = true
				ops = append(ops, o)
			case k < 7:
				// mostly a present cluster; 1 of 5 an absent / unknown one (refused: nothing changes)
				name := r.PickS(cp)
				if r.Intn(5) != 0 {
					for _, n := range cp {
						if present[n] {
							name = n
						}
					}
				}
				delete(present, name)
				ops = append(ops, cx(name))
			default:
				var items []dirItem
				for _, n := range vp {
					if r.Intn(5) < 2 {
						items = append(items, dirItem{n, 1 + r.Intn(5)})
					}
				}
				ops = append(ops, vs(items...))
			}
		}
		runDirHistory(c, mode, ops)
		c.Count("dirh.stream=generated")
	}
}
