package main

import (
	"verif/harness/hx"

	_ "verif/harness/c06"
)

func main() { hx.Main() }
